"""C12 — size and range limits are exact; accepted values are never altered to fit.

Decides (T): the *evaluated* type (const generics, aliases and constants resolved by rustc) of
every bounded request member against spec/limits.json: container kind and capacity, integer
width and signedness — in the struct definition and, where a derive decodes it, in the decoded
type of the generated decoder (both must agree); the wrapper decoders of the lossy members are
instantiated with the member's own capacity; the set of members decoded through a custom function
and the set of hand-written Deserialize impls equal the documented lossy sets, so nothing else can
alter an accepted value.
Not decided: accept-at-capacity / reject-at-capacity+1 behaviour of heapless / heapless-bytes /
serde_bytes / cbor-smol (value-level, dependencies).
"""
import json
import os

from . import tables as T
from . import wire as W
from .facts import DE
from . import hirq as H
from .oblig_mono import Reach, hir_fn_for
from .engine import VERIF

LEVEL = "other"


def run(ctx):
    if ctx.tier == "thorough":
        from .witness import run_witness
        run_witness(ctx, "C12")
    spec = json.load(open(os.path.join(VERIF, "spec", "limits.json")))
    ctx.explanation = ("Table agreement on evaluated field types from rustc's ADT table (local and cosey), cross-checked with the decoded types in the generated decoders, "
                       "against an independent limits table; plus who-may-alter rule: custom decoder wiring and hand-written Deserialize impls are exactly the documented sets.")
    ctx.rule = "obligation = limits row (struct type, decoded type, wrapper instantiation) per configuration"
    ctx.trusted = ["heapless 0.7.17 / heapless-bytes 0.3.0 / serde_bytes 0.11.19: over-capacity input is an error, never a truncation", "cbor-smol 0.5.1 integer range checks"]
    for cfg, F in ctx.facts.items():
        decode_cache = {}

        def dec(path):
            if path not in decode_cache:
                try:
                    decode_cache[path] = W.decode_table(F, path)
                except T.Unreadable:
                    decode_cache[path] = None
            return decode_cache[path]

        n = 0
        for row in spec["containers"]:
            n += 1
            key = "C12|cap|%s|%s" % (row["type"], row["field"])
            ft = W.field_types(F, row["type"])
            if not ctx.oblige(key + "|anchor", ft is not None and row["field"] in ft, "anchor missing: %s.%s" % (row["type"], row["field"]), cfg=cfg):
                continue
            c = W.capacity(ft[row["field"]])
            ctx.oblige(key, c.get("kind") == row["kind"] and c.get("cap") == row["cap"],
                       "%s.%s is %s, the limit is %s of capacity %d" % (row["type"], row["field"], W.erase_lt(ft[row["field"]]), row["kind"], row["cap"]), cfg=cfg)
            tab = dec(row["type"])
            if tab:
                m = next((m for m in tab["members"] if m["field"] == row["field"]), None)
                if m is not None:
                    dc = W.capacity(m["ty"])
                    ctx.oblige(key + "|decoded", dc.get("kind") == row["kind"] and dc.get("cap") == row["cap"],
                               "%s.%s is decoded as %s, the limit is %s of capacity %d" % (row["type"], row["field"], m["ty"], row["kind"], row["cap"]), cfg=cfg)
                    if m["with"]:
                        targs = m["with"].get("targs") or []
                        ctx.oblige(key + "|wrapper-cap", str(row["cap"]) in targs,
                                   "%s.%s: lossy decoder instantiated with %s, member capacity is %d" % (row["type"], row["field"], targs, row["cap"]), cfg=cfg)
            ctx.sample({"cfg": cfg, "member": row["type"] + "." + row["field"], "evaluated_type": W.erase_lt(ft[row["field"]])}, limit=32)
        for row in spec["integers"]:
            n += 1
            key = "C12|int|%s|%s" % (row["type"], row["field"])
            ft = W.field_types(F, row["type"])
            if not ctx.oblige(key + "|anchor", ft is not None and row["field"] in ft, "anchor missing: %s.%s" % (row["type"], row["field"]), cfg=cfg):
                continue
            c = W.capacity(ft[row["field"]])
            ctx.oblige(key, c.get("kind") == "int" and c.get("width") == row["width"],
                       "%s.%s is %s, specification width is %s" % (row["type"], row["field"], W.erase_lt(ft[row["field"]]), row["width"]), cfg=cfg)
            tab = dec(row["type"])
            if tab:
                m = next((m for m in tab["members"] if m["field"] == row["field"]), None)
                if m is not None:
                    dc = W.capacity(m["ty"])
                    ctx.oblige(key + "|decoded", dc.get("kind") == "int" and dc.get("width") == row["width"], "%s.%s is decoded as %s, specification width is %s" % (row["type"], row["field"], m["ty"], row["width"]), cfg=cfg)
        ctx.floor("limit rows", n, 31, cfg=cfg)
        # who may alter a value: custom decoders
        # the documented decoders are named by their role (today's names in the table): a renamed / moved private helper that
        # still plays the role (C13 decides what each role does) is the same decoder
        from . import c13
        t_w, s_w = c13.names(F)[:2]
        by_role = {"webauthn::deserialize_from_str_and_truncate": t_w, "webauthn::deserialize_from_str_and_skip_if_too_long": s_w}
        documented = {(t, f): by_role.get(fn, fn) for t, f, fn in spec["lossy_members"]}
        found = {}
        for a in F.adts.values():
            if not a["local"] or a["kind"] != "struct":
                continue
            tab = dec(a["path"])
            if not tab:
                continue
            for m in tab["members"]:
                if m["with"]:
                    found[(a["path"], m["field"])] = m["with"]["fn"]
        for k in sorted(set(found) | set(documented)):
            ctx.oblige("C12|lossy|%s|%s" % k, found.get(k) == documented.get(k),
                       "%s.%s: custom decoder %s, documented %s" % (k[0], k[1], found.get(k), documented.get(k)), cfg=cfg)
        # nothing on the decode path narrows an integer with `as`: a value that was accepted must not be wrapped to fit
        r = F.mono_root("ctap2::Request::<'a>::deserialize")
        if ctx.oblige("C12|root", r is not None and "inst" in r, "anchor missing: mono root Request::deserialize", cfg=cfg, nontrivial=False):
            R = Reach(F, r["inst"])
            seen_fn = set()
            n_casts = 0
            bits = {"u8": 8, "i8": 8, "u16": 16, "i16": 16, "u32": 32, "i32": 32, "u64": 64, "i64": 64, "usize": 64, "isize": 64, "u128": 128, "i128": 128}
            for inst in R.local:
                fn = hir_fn_for(F, inst)
                if fn is None or fn["id"] in seen_fn:
                    continue
                seen_fn.add(fn["id"])
                for x in H.walk(fn["body"]):
                    if x.get("k") == "cast" and x.get("from") in bits and x.get("ty") in bits:
                        n_casts += 1
                        fb, tb = bits[x["from"]], bits[x["ty"]]
                        ctx.oblige("C12|narrowing-cast|%s|%s->%s" % (fn["path"][:90], x["from"], x["ty"]), tb >= fb,
                                   "%s narrows a decoded integer with `as` (%s -> %s): values beyond the target range are wrapped instead of rejected" % (fn["path"][:120], x["from"], x["ty"]),
                                   cfg=cfg, where=H.line(x))
            ctx.extra.setdefault("integer_casts_on_decode_path", {})[cfg] = n_casts
            ctx.floor("decode-path functions scanned for narrowing casts", len(seen_fn), 60, cfg=cfg)
        # hand-written decoders read exactly the documented (bounded) element types
        got_leaves = W.handwritten_leaves(F)
        want_leaves = W.want_leaves(F)
        for key in sorted(set(got_leaves) | set(want_leaves)):
            label = "::".join(key[1:])
            ctx.oblige("C12|handwritten-leaf|" + label, got_leaves.get(key) == want_leaves.get(key),
                       "hand-written decoder %s reads %s, documented %s: the declared width / capacity of the member is bypassed" % (label, sorted(got_leaves.get(key, [])), sorted(want_leaves.get(key, []))), cfg=cfg)
        # "a value that is accepted is delivered whole ... except the members documented as lossy": the lossy decoders lose
        # exactly what is documented (C13's rules are a necessary condition here as well)
        from . import c13
        from .engine import Probe
        pr = Probe(facts={cfg: F})
        c13.run(pr)
        ctx.oblige("C12|lossy-semantics", not pr.failed, "a lossy decoder alters or drops values beyond what is documented: %s" % "; ".join("%s: %s" % (k, m[:160]) for k, m in pr.failed[:2]), cfg=cfg)
        # an element of a filtered list that exceeds its own limits (a 33-byte type string, an alg outside i32) fails in the
        # element decoder, and that failure must fail the request: the list decoders may only skip *decodable* unknown entries
        from . import c14
        pr14 = Probe(facts={cfg: F})
        c14.run(pr14)
        ctx.oblige("C12|list-decoders", not pr14.failed, "a list decoder skips or swallows entries it should reject: %s" % "; ".join("%s: %s" % (k, m[:160]) for k, m in pr14.failed[:2]), cfg=cfg)
        hand = sorted({(f["impl"]["self_ty"].get("path") or f["impl"]["self_ty"]["s"]) for f in F.fns
                       if f["name"] == "deserialize" and (f.get("impl") or {}).get("trait") == DE and f["impl"].get("impl_pv") == "user"
                       and "__" not in f["impl"]["self_ty"]["s"] and "::deserialize::" not in f["impl"]["self_ty"]["s"]} - set(W.table_enums(F)))
        # (a documented lossy type whose decoder is generated instead -- `#[serde(from = "&str")]` -- is still held to its documented
        # leaf type and semantics by the clauses above; what may not appear is a hand-written decoder that is not documented)
        ctx.oblige("C12|handwritten", set(hand) <= set(spec["handwritten_decoders"]),
                   "hand-written Deserialize impls are %s, documented lossy types are %s: an unaudited decoder could alter accepted values" % (hand, sorted(spec["handwritten_decoders"])), cfg=cfg)
