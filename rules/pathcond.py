"""Path-literal extraction (rule kind P): for every result site of a function body the
list of branch literals that structurally dominate it.  No solver, no evaluation: the
literals are the conditions written in the code, canonicalised."""
from . import hirq as H

OK = "core::result::Result::Ok"
ERR = "core::result::Result::Err"
SOME = "core::option::Option::Some"
NONE = "core::option::Option::None"


class Cond:
    """kind: 'expr' (boolean expression with polarity), 'let' (pattern test with polarity),
    'match' (scrutinee in arm pattern, not in prior patterns), 'loop' (inside a loop body),
    'try' (an earlier `?` on this path succeeded)"""

    def __init__(self, kind, **kw):
        self.kind = kind
        self.__dict__.update(kw)

    def __repr__(self):
        return "Cond(%s)" % self.kind


class Site:
    def __init__(self, seq, conds, kind, node, wrappers):
        self.seq = seq
        self.conds = conds
        self.kind = kind          # 'ret' | 'tail' | 'try' | 'break'
        self.node = node
        self.wrappers = wrappers  # ctor paths from outermost to innermost

    def in_loop(self):
        return any(c.kind == "loop" for c in self.conds)


def split_cond(c, pol):
    """conjunct literals implied by `c` having truth value `pol`"""
    c = H.strip_block(c)
    if c.get("k") == "binary" and c["op"] == "&&" and pol:
        return split_cond(c["l"], True) + split_cond(c["r"], True)
    if c.get("k") == "binary" and c["op"] == "||" and not pol:
        return split_cond(c["l"], False) + split_cond(c["r"], False)
    if c.get("k") == "unary" and c["op"] == "not":
        return split_cond(c["e"], not pol)
    if c.get("k") == "letexpr":
        return [Cond("let", pat=c["pat"], init=c["init"], pol=pol)]
    return [Cond("expr", e=c, pol=pol)]


class Analysis:
    def __init__(self, fn, point_pred=None):
        self.fn = fn
        self.point_pred = point_pred
        self.points = []    # (node, conds) for nodes selected by point_pred (obligation sites)
        self.sites = []     # result sites (ret / tail), expanded through if/match/Ok/Err/Some
        self.tries = []     # `?` sites: node is the operand of `?`
        self.env = {}       # local id -> init expression (immutable simple `let`)
        self.mutable = set()
        self.pat_of = {}    # local id -> (pattern, init) for destructuring lets
        self.seq = 0
        self.param_ids = {}
        for p in fn.get("params", []):
            for name, pid in H.pat_bindings(p):
                self.param_ids[pid] = name
        self.value(fn["body"], [], [], "tail")

    def _next(self):
        self.seq += 1
        return self.seq

    # -- expressions evaluated for effect (not the function result)
    def scan(self, e, conds):
        k = e.get("k")
        if self.point_pred is not None and self.point_pred(e):
            self.points.append((e, list(conds)))
        if k == "ret":
            if "e" in e:
                self.value(e["e"], conds, [], "ret")
            else:
                self.sites.append(Site(self._next(), list(conds), "ret", None, []))
            return
        if k == "try":
            self.scan(e["e"], conds)
            self.tries.append(Site(self._next(), list(conds), "try", e["e"], []))
            return
        if k == "if":
            self.scan(e["cond"], conds)
            self.scan(e["then"], conds + split_cond(e["cond"], True))
            if "else" in e:
                self.scan(e["else"], conds + split_cond(e["cond"], False))
            return
        if k == "match":
            self.scan(e["scrut"], conds)
            prior = []
            for a in e["arms"]:
                mc = Cond("match", scrut=e["scrut"], pat=a["pat"], prior=list(prior), guard=a.get("guard"))
                self.scan(a["body"], conds + [mc])
                prior.append(a["pat"])
            return
        if k == "block":
            self.block(e, conds, False, [], None)
            return
        if k == "closure":
            return  # separate control flow; analysed on demand by the rule that cares
        if k == "loop":
            self.scan(e["body"], conds + [Cond("loop", src=e.get("src"))])
            return
        if k in ("let", "expr", "semi"):
            for ch in H.children(e):
                self.scan(ch, conds)
            return
        if k == "assign" or k == "assignop":
            lid = H.local_id(e["l"])
            if lid is not None:
                self.mutable.add(lid)
        for ch in H.children(e):
            self.scan(ch, conds)

    def block(self, b, conds, as_value, wrappers, kind):
        cur = list(conds)
        for s in b.get("stmts", []):
            if s["k"] == "let":
                init = s.get("init")
                if init is not None:
                    self.scan(init, cur)
                pat = s["pat"]
                if init is not None:
                    if pat.get("k") == "bind" and "sub" not in pat:
                        if "Mut" in pat.get("mode", "") and "No, Mut" in pat.get("mode", ""):
                            self.mutable.add(pat["id"])
                        self.env[pat["id"]] = init
                    else:
                        for name, pid in H.pat_bindings(pat):
                            self.pat_of[pid] = (pat, init)
                if "els" in s:
                    self.block(s["els"], cur + [Cond("let", pat=pat, init=init, pol=False)], False, [], None)
                    cur = cur + [Cond("let", pat=pat, init=init, pol=True)]
                continue
            e = s["e"]
            self.scan(e, cur)
            e2 = H.strip_block(e)
            if e2.get("k") == "if":
                td = H.diverges(e2["then"])
                ed = "else" in e2 and H.diverges(e2["else"])
                if td and not ed:
                    cur = cur + split_cond(e2["cond"], False)
                elif ed and not td:
                    cur = cur + split_cond(e2["cond"], True)
            elif e2.get("k") == "match":
                live = [a for a in e2["arms"] if not H.diverges(a["body"])]
                if len(live) == 1 and len(e2["arms"]) > 1:
                    idx = e2["arms"].index(live[0])
                    cur = cur + [Cond("match", scrut=e2["scrut"], pat=live[0]["pat"], prior=[a["pat"] for a in e2["arms"][:idx]], guard=live[0].get("guard"))]
            if H.diverges(e2):
                return
        if "expr" in b:
            if as_value:
                self.value(b["expr"], cur, wrappers, kind)
            else:
                self.scan(b["expr"], cur)
        elif as_value:
            # block ending in a statement: value is () (or the block diverged above)
            self.sites.append(Site(self._next(), cur, kind, None, list(wrappers)))

    # -- expressions whose value is the function result
    def value(self, e, conds, wrappers, kind):
        k = e.get("k")
        if k == "block":
            self.block(e, conds, True, wrappers, kind)
            return
        if k == "if":
            self.scan(e["cond"], conds)
            self.value(e["then"], conds + split_cond(e["cond"], True), wrappers, kind)
            if "else" in e:
                self.value(e["else"], conds + split_cond(e["cond"], False), wrappers, kind)
            return
        if k == "match" and e.get("src") in ("normal", "postfix"):
            self.scan(e["scrut"], conds)
            prior = []
            for a in e["arms"]:
                mc = Cond("match", scrut=e["scrut"], pat=a["pat"], prior=list(prior), guard=a.get("guard"))
                self.value(a["body"], conds + [mc], wrappers, kind)
                prior.append(a["pat"])
            return
        if k == "call" and e.get("ctor") in (OK, ERR, SOME) and len(e["args"]) == 1:
            self.value(e["args"][0], conds, wrappers + [e["ctor"]], kind)
            return
        if k == "ret":
            if "e" in e:
                self.value(e["e"], conds, [], "ret")
            else:
                self.sites.append(Site(self._next(), list(conds), "ret", None, []))
            return
        self.scan(e, conds)
        if e.get("ty") == "!" and k not in ("call", "mcall", "path"):
            return
        self.sites.append(Site(self._next(), list(conds), kind, e, list(wrappers)))

    # -- canonical descriptions
    def subst(self, n, depth=0):
        """follow immutable simple lets: a local bound once to an expression is that expression"""
        n = H.strip(n)
        while depth < 16 and n.get("k") == "path" and n["res"].get("rk") == "Local":
            lid = n["res"]["id"]
            if lid in self.env and lid not in self.mutable:
                n = H.strip(self.env[lid])
                depth += 1
            else:
                break
        return n

    def desc(self, n, depth=0):
        """canonical string for an expression (let-substituted, callee paths resolved)"""
        if n is None:
            return "()"
        if depth > 24:
            return "..."
        n = self.subst(n)
        k = n.get("k")
        if k == "lit":
            return repr(n.get("v"))
        if k == "path":
            r = n["res"]
            if r.get("rk") == "Local":
                if r["id"] in self.param_ids:
                    return "param:" + r["name"]
                return "local:%s#%d" % (r["name"], r["id"])
            return r.get("path") or r.get("rk")
        if k == "field":
            return self.desc(n["base"], depth + 1) + "." + n["name"]
        if k == "mcall" or k == "call":
            cal = n.get("callee") or n.get("ctor") or "?"
            args = ([n["recv"]] if k == "mcall" else []) + n["args"]
            return cal + "(" + ", ".join(self.desc(a, depth + 1) for a in args) + ")"
        if k == "index":
            return self.desc(n["base"], depth + 1) + "[" + self.desc(n["idx"], depth + 1) + "]"
        if k == "cast":
            return "(" + self.desc(n["e"], depth + 1) + " as " + n.get("ty", "?") + ")"
        if k == "binary":
            return "(" + self.desc(n["l"], depth + 1) + " " + n["op"] + " " + self.desc(n["r"], depth + 1) + ")"
        if k == "unary":
            return n["op"] + "(" + self.desc(n["e"], depth + 1) + ")"
        if k == "struct":
            p = n["res"].get("path", "?")
            return p + "{" + ", ".join(f["name"] + ": " + self.desc(f["e"], depth + 1) for f in n["fields"]) + "}"
        if k == "try":
            return "try(" + self.desc(n["e"], depth + 1) + ")"
        if k == "tup":
            return "(" + ", ".join(self.desc(a, depth + 1) for a in n["elems"]) + ")"
        if k == "array":
            return "[" + ", ".join(self.desc(a, depth + 1) for a in n["elems"]) + "]"
        if k == "closure":
            return "closure"
        if k == "match":
            return "match(" + self.desc(n["scrut"], depth + 1) + ")"
        return k or "?"

    def comparison(self, cond):
        """for an 'expr' literal that is a comparison: (lhs desc, op, rhs desc) with the
        polarity folded into the operator and a constant moved to the right"""
        if cond.kind != "expr":
            return None
        e = H.strip_block(cond.e)
        if e.get("k") != "binary" or e["op"] not in ("==", "!=", "<", "<=", ">", ">="):
            return None
        op = e["op"]
        l, r = e["l"], e["r"]
        if not cond.pol:
            op = {"==": "!=", "!=": "==", "<": ">=", ">=": "<", ">": "<=", "<=": ">"}[op]
        ls, rs = self.subst(l), self.subst(r)
        if H.is_lit(ls) and not H.is_lit(rs):
            l, r = r, l
            op = {"==": "==", "!=": "!=", "<": ">", ">": "<", "<=": ">=", ">=": "<="}[op]
        return self.desc(l), op, self.desc(r)

    def cond_str(self, c):
        if c.kind == "expr":
            cmp_ = self.comparison(c)
            if cmp_:
                return "%s %s %s" % cmp_
            return ("" if c.pol else "!") + self.desc(c.e)
        if c.kind == "let":
            return "%s %s %s" % (self.desc(c.init), "matches" if c.pol else "!matches", pat_str(c.pat))
        if c.kind == "match":
            s = "%s in %s" % (self.desc(c.scrut), pat_str(c.pat))
            if c.prior and H.pat_is_catchall(c.pat):
                s = "%s not in {%s}" % (self.desc(c.scrut), ", ".join(pat_str(p) for p in c.prior))
            return s
        if c.kind == "loop":
            return "in-loop"
        return c.kind

    def site_str(self, s):
        return {"result": "/".join(w.split("::")[-1] for w in s.wrappers) + ("(" if s.wrappers else "") + self.desc(s.node) + (")" if s.wrappers else ""),
                "when": [self.cond_str(c) for c in s.conds], "kind": s.kind, "at": H.line(s.node) if s.node else ""}


def pat_str(p):
    k = p.get("k")
    if k == "wild":
        return "_"
    if k == "bind":
        return p["name"] + ("@" + pat_str(p["sub"]) if "sub" in p else "")
    if k == "expr":
        e = p["e"]
        if e.get("k") == "lit":
            return repr(e.get("v"))
        return e["res"].get("path", "?")
    if k == "tuplestruct":
        return (p["res"].get("ctor_of") or p["res"].get("path", "?")) + "(" + ",".join(pat_str(q) for q in p["pats"]) + ")"
    if k == "struct":
        return p["res"].get("path", "?") + "{..}"
    if k == "or":
        return "|".join(pat_str(q) for q in p["pats"])
    if k == "range":
        def pe(e):
            return repr(e.get("v")) if e.get("k") == "lit" else e["res"].get("path", "?")
        return (pe(p["lo"]) if "lo" in p else "") + ("..=" if p.get("inclusive") else "..") + (pe(p["hi"]) if "hi" in p else "")
    if k in ("ref", "deref"):
        return "&" + pat_str(p["pat"])
    if k == "tuple":
        return "(" + ",".join(pat_str(q) for q in p["pats"]) + ")"
    return k or "?"


# --------------------------------------------------------------------------- effect paths

class Path:
    __slots__ = ("conds", "effects", "done", "loops", "result")

    def __init__(self, conds=(), effects=(), done=None, loops=0, result=None):
        self.conds = conds        # tuple of Cond
        self.effects = effects    # tuple of nodes (in evaluation order)
        self.done = done          # None | 'ret' | 'try-err' | 'break' | 'continue' | 'diverge'
        self.loops = loops
        self.result = result      # value node for 'ret' / tail

    def then(self, other):
        return Path(self.conds + other.conds, self.effects + other.effects, other.done, self.loops + other.loops, other.result)


MAX_PATHS = 20000


class TooManyPaths(Exception):
    pass


def effect_paths(node, is_effect):
    """all control-flow paths through a loop-free expression with the ordered effects on each.
    `?` forks into a continuing path and a terminated ('try-err') path; loops are entered once
    and counted (rules reject paths with loops where order matters)."""
    def seq(paths, nxt):
        out = []
        for p in paths:
            if p.done:
                out.append(p)
            else:
                for q in nxt():
                    out.append(p.then(q))
                    if len(out) > MAX_PATHS:
                        raise TooManyPaths()
        return out

    def many(nodes):
        paths = [Path()]
        for n in nodes:
            paths = seq(paths, lambda n=n: go(n))
        return paths

    def go(n):
        k = n.get("k")
        if k == "block":
            paths = [Path()]
            for s in n.get("stmts", []):
                if s["k"] == "let":
                    if "init" in s:
                        paths = seq(paths, lambda s=s: go(s["init"]))
                    if "els" in s:
                        def branch(s=s):
                            a = [Path(conds=(Cond("let", pat=s["pat"], init=s.get("init"), pol=True),))]
                            b = [Path(conds=(Cond("let", pat=s["pat"], init=s.get("init"), pol=False),)).then(q) for q in go(s["els"])]
                            return a + b
                        paths = seq(paths, branch)
                else:
                    paths = seq(paths, lambda s=s: go(s["e"]))
            if "expr" in n:
                paths = seq(paths, lambda: [Path(p.conds, p.effects, p.done, p.loops, p.result if p.done else n["expr"]) for p in go(n["expr"])])
            return paths
        if k == "if":
            def branches():
                out = []
                for pol, key in ((True, "then"), (False, "else")):
                    cs = tuple(split_cond(n["cond"], pol))
                    if key in n:
                        out.extend(Path(conds=cs).then(q) for q in go(n[key]))
                    else:
                        out.append(Path(conds=cs))
                return out
            return seq(go(n["cond"]), branches)
        if k == "match":
            def arms():
                out = []
                prior = []
                for a in n["arms"]:
                    mc = Cond("match", scrut=n["scrut"], pat=a["pat"], prior=list(prior), guard=a.get("guard"))
                    out.extend(Path(conds=(mc,)).then(q) for q in go(a["body"]))
                    prior.append(a["pat"])
                return out
            return seq(go(n["scrut"]), arms)
        if k == "ret":
            ps = go(n["e"]) if "e" in n else [Path()]
            return [p if p.done else Path(p.conds, p.effects, "ret", p.loops, n.get("e")) for p in ps]
        if k == "break":
            ps = go(n["e"]) if "e" in n else [Path()]
            return [p if p.done else Path(p.conds, p.effects, "break", p.loops) for p in ps]
        if k == "continue":
            return [Path(done="continue")]
        if k == "try":
            out = []
            for p in go(n["e"]):
                if p.done:
                    out.append(p)
                else:
                    out.append(Path(p.conds + (Cond("try", e=n["e"], pol=True),), p.effects, None, p.loops))
                    out.append(Path(p.conds + (Cond("try", e=n["e"], pol=False),), p.effects, "try-err", p.loops, n["e"]))
            return out
        if k == "closure":
            return [Path(effects=(n,))] if is_effect(n) else [Path()]
        if k == "loop":
            out = []
            for p in go(n["body"]):
                d = None if p.done in ("break", "continue") else p.done
                out.append(Path(p.conds, p.effects, d, p.loops + 1))
            return out
        if k in ("call", "mcall"):
            nodes = ([n["f"]] if k == "call" else []) + H.call_args(n)
            ps = many(nodes)
            if is_effect(n):
                ps = seq(ps, lambda: [Path(effects=(n,))])
            if n.get("ty") == "!":
                ps = [p if p.done else Path(p.conds, p.effects, "diverge", p.loops) for p in ps]
            return ps
        if k in ("assign", "assignop"):
            ps = many([n["r"], n["l"]])
            if is_effect(n):
                ps = seq(ps, lambda: [Path(effects=(n,))])
            return ps
        ch = H.children(n)
        ps = many(ch)
        if is_effect(n):
            ps = seq(ps, lambda: [Path(effects=(n,))])
        return ps

    return go(node)
