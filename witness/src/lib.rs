//! E3 witness crate (thorough tier, cross-check only): names `ctap_types` as an external user.
//! Every example is either `compile_fail,E0xxx` or `no_run`: nothing of ctap-types is executed.
//! Each compile-fail witness has a compiling twin that differs only by the offending line, so a
//! witness whose path is merely wrong cannot pass.
//!
//! ## C11 — a vendor operation can only be built by its checked constructor
//!
//! The byte is private: this must not type-check.
//! ```compile_fail,E0423
//! let v = ctap_types::ctap2::VendorOperation(0x05);
//! let _: u8 = v.into();
//! ```
//! Twin: the checked constructor compiles.
//! ```no_run
//! let v = ctap_types::ctap2::VendorOperation::try_from(0x42u8).unwrap();
//! let _: u8 = v.into();
//! ```
//! The wrapped byte cannot be overwritten either.
//! ```compile_fail,E0616
//! let mut v = ctap_types::ctap2::VendorOperation::try_from(0x42u8).unwrap();
//! v.0 = 0x05;
//! ```
//!
//! ## C12 — capacities and widths as an external user sees them
//!
//! ```no_run
//! use ctap_types::{Bytes, String, Vec};
//! use ctap_types::webauthn::*;
//! fn user(u: &PublicKeyCredentialUserEntity) {
//!     let _: &Bytes<64> = &u.id;
//!     let _: &Option<String<128>> = &u.icon;
//!     let _: &Option<String<64>> = &u.name;
//!     let _: &Option<String<64>> = &u.display_name;
//! }
//! fn rp(r: &PublicKeyCredentialRpEntity) {
//!     let _: &String<256> = &r.id;
//!     let _: &Option<String<64>> = &r.name;
//! }
//! fn params(p: &PublicKeyCredentialParameters) {
//!     let _: &i32 = &p.alg;
//!     let _: &String<32> = &p.key_type;
//! }
//! fn ga<'a>(r: &ctap_types::ctap2::get_assertion::Request<'a>) {
//!     let _: &Option<Vec<PublicKeyCredentialDescriptorRef<'a>, 10>> = &r.allow_list;
//!     let _: &Option<u32> = &r.pin_protocol;
//! }
//! fn mc<'a>(r: &ctap_types::ctap2::make_credential::Request<'a>) {
//!     let _: &Option<Vec<PublicKeyCredentialDescriptorRef<'a>, 16>> = &r.exclude_list;
//!     let _: &Vec<KnownPublicKeyCredentialParameters, 2> = &r.pub_key_cred_params.0;
//! }
//! fn hmac(h: &ctap_types::ctap2::get_assertion::HmacSecretInput) {
//!     let _: &Bytes<80> = &h.salt_enc;
//!     let _: &Bytes<32> = &h.salt_auth;
//!     let _: &Bytes<32> = &h.key_agreement.x;
//!     let _: &Bytes<32> = &h.key_agreement.y;
//! }
//! fn pin<'a>(r: &ctap_types::ctap2::client_pin::Request<'a>) {
//!     let _: &u8 = &r.pin_protocol;
//!     let _: &Option<u8> = &r.permissions;
//! }
//! fn cm<'a>(p: &ctap_types::ctap2::credential_management::SubcommandParameters<'a>) {
//!     let _: &Option<&'a ctap_types::ByteArray<32>> = &p.rp_id_hash;
//! }
//! ```
//! Twin that must fail: the user id is not 65 bytes wide.
//! ```compile_fail,E0308
//! use ctap_types::Bytes;
//! fn user(u: &ctap_types::webauthn::PublicKeyCredentialUserEntity) {
//!     let _: &Bytes<65> = &u.id;
//! }
//! ```
//! Twin that must fail: the allow list does not hold 11 entries.
//! ```compile_fail,E0308
//! use ctap_types::Vec;
//! use ctap_types::webauthn::PublicKeyCredentialDescriptorRef;
//! fn ga<'a>(r: &ctap_types::ctap2::get_assertion::Request<'a>) {
//!     let _: &Option<Vec<PublicKeyCredentialDescriptorRef<'a>, 11>> = &r.allow_list;
//! }
//! ```
