// demonstration for the two C03 findings (get-info-full only)
#![cfg(feature = "get-info-full")]
use ctap_types::ctap2::get_info::{Certifications, CtapOptions};
use ctap_types::serde::cbor_serialize;

#[test]
fn ctap_options_key_order() {
    let mut o = CtapOptions::default();
    o.set_min_pin_length = Some(true);
    o.pin_uv_auth_token = Some(true);
    let mut buf = [0u8; 256];
    let s = cbor_serialize(&o, &mut buf).unwrap();
    let a = s.windows(14).position(|w| w == b"pinUvAuthToken").unwrap();
    let b = s.windows(15).position(|w| w == b"setMinPINLength").unwrap();
    assert!(a < b, "pinUvAuthToken (14 bytes) must precede setMinPINLength (15 bytes): {:02x?}", s);
}

#[test]
fn certifications_key_order() {
    let c: Certifications = ctap_types::serde::cbor_deserialize(&[0xa2, 0x64, b'F', b'I', b'D', b'O', 1, 0x66, b'C', b'C', b'-', b'E', b'A', b'L', 2]).unwrap();
    let mut buf = [0u8; 256];
    let s = cbor_serialize(&c, &mut buf).unwrap();
    assert_eq!(s, &[0xa2, 0x64, b'F', b'I', b'D', b'O', 1, 0x66, b'C', b'C', b'-', b'E', b'A', b'L', 2], "re-encoding canonical bytes must reproduce them");
}
