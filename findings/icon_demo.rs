// demonstration for the C04/C13 finding: a user icon longer than 128 bytes must be dropped (Ok(None)), not panic
use ctap_types::serde::cbor_deserialize;
use ctap_types::webauthn::PublicKeyCredentialUserEntity;

fn user_with_icon(len: usize) -> Vec<u8> {
    let mut v = vec![0xa2, 0x62, b'i', b'd', 0x41, 0x01, 0x64, b'i', b'c', b'o', b'n'];
    assert!(len < 256 && len >= 24);
    v.extend_from_slice(&[0x78, len as u8]);
    v.extend(std::iter::repeat(b'a').take(len));
    v
}

#[test]
fn icon_of_128_bytes_is_kept() {
    let b = user_with_icon(128);
    let u: PublicKeyCredentialUserEntity = cbor_deserialize(&b).unwrap();
    assert_eq!(u.icon.as_ref().map(|s| s.len()), Some(128));
}

#[test]
fn icon_of_129_bytes_is_dropped_not_a_panic() {
    let b = user_with_icon(129);
    let u: PublicKeyCredentialUserEntity = cbor_deserialize(&b).unwrap();
    assert!(u.icon.is_none());
    assert_eq!(u.id.len(), 1);
}
