"""Checker self-test cases.  MUTANTS: compile-clean edits that break a property — the owning
check(s) must fire and name the construct.  BENIGN: behaviour-preserving edits — every check
must stay silent.  Each edit is (file, old, new): one literal replacement in a scratch copy."""

Q = "'"

MUTANTS = [
    # ---- C01
    dict(id="m01-swap-ga-fields", fires=["C01"], key="rp_id", edits=[("src/ctap2/get_assertion.rs",
         "    pub rp_id: &'a str,\n    pub client_data_hash: &'a serde_bytes::Bytes,", "    pub client_data_hash: &'a serde_bytes::Bytes,\n    pub rp_id: &'a str,")]),
    dict(id="m01-drop-url-alias", fires=["C01", "C13", "C15"], key="icon", edits=[("src/webauthn.rs", '#[serde(skip_serializing, alias = "url")]', "#[serde(skip_serializing)]")]),
    # ---- C02
    dict(id="m02-swap-ga-response", fires=["C02"], key="ep_att", edits=[("src/ctap2/get_assertion.rs",
         '    #[serde(skip_serializing_if = "Option::is_none")]\n    pub ep_att: Option<bool>,\n    #[serde(skip_serializing_if = "Option::is_none")]\n    pub att_stmt: Option<AttestationStatement>,\n}',
         '    #[serde(skip_serializing_if = "Option::is_none")]\n    pub att_stmt: Option<AttestationStatement>,\n    #[serde(skip_serializing_if = "Option::is_none")]\n    pub ep_att: Option<bool>,\n}')]),
    dict(id="m02-a0-collapse", fires=["C02", "C17"], key="frame", edits=[("src/ctap2.rs", "if slice == [0xA0] {", "if slice == [0xA1] {")]),
    # ---- C03
    dict(id="m03-indefinite-seq", fires=["C03", "C02"], key="definite", edits=[("src/webauthn.rs", "serializer.serialize_seq(Some(self.0.len()))?", "serializer.serialize_seq(None)?")]),
    # ---- C04
    dict(id="m04-push-unwrap", fires=["C04", "C14"], key="unwrap", edits=[("src/webauthn.rs", "                    values.0.push(el).ok();", "                    values.0.push(el).unwrap();")]),
    dict(id="m04-string-from", fires=["C04", "C13"], key="skip", edits=[("src/webauthn.rs",
         "    let mut string = String::new();\n    match string.push_str(s) {\n        Ok(()) => Ok(Some(string)),\n        Err(_err) => {\n            info_now!(\"skipping field: {:?}\", _err);\n            Ok(None)\n        }\n    }",
         "    if s.len() > L + 1 {\n        return Ok(None);\n    }\n    Ok(Some(String::from(s)))")]),
    dict(id="m04-try-from-blanket", fires=["C13", "C04"], key="fallible-conversion", edits=[("src/webauthn.rs",
         "    let mut string = String::new();\n    match string.push_str(s) {\n        Ok(()) => Ok(Some(string)),",
         "    #[allow(clippy::unnecessary_fallible_conversions)]\n    match String::try_from(s) {\n        Ok(string) => Ok(Some(string)),")]),
    # ---- C05
    dict(id="m05-custom-to-invalid-parameter", fires=["C05"], key="SerdeDeCustom", edits=[("src/ctap2.rs",
         "                cbor_smol::Error::SerdeMissingField => Error::MissingParameter,\n", "                cbor_smol::Error::SerdeMissingField => Error::MissingParameter,\n                cbor_smol::Error::SerdeDeCustom => Error::InvalidParameter,\n")]),
    dict(id="m05-default-rp-id", fires=["C05", "C01"], key="id", edits=[("src/webauthn.rs", "pub struct PublicKeyCredentialRpEntity {\n    pub id: String<256>,", "pub struct PublicKeyCredentialRpEntity {\n    #[serde(default)]\n    pub id: String<256>,")]),
    # ---- C06
    dict(id="m06-deny-unknown", fires=["C06"], key="PublicKeyCredentialDescriptorRef", edits=[("src/webauthn.rs",
         '#[serde(rename_all = "camelCase")]\n/// Same as PublicKeyCredentialDescriptor but which deserializes using references', '#[serde(rename_all = "camelCase", deny_unknown_fields)]\n/// Same as PublicKeyCredentialDescriptor but which deserializes using references')]),
    # ---- C07
    dict(id="m07-le-counter", fires=["C07"], key="layout", edits=[("src/ctap2.rs", "            .extend_from_slice(&self.sign_count.to_be_bytes())", "            .extend_from_slice(&self.sign_count.to_le_bytes())")]),
    dict(id="m07-as-u16", fires=["C07"], key="acd", edits=[("src/ctap2/make_credential.rs",
         "        let credential_id_len =\n            u16::try_from(self.credential_id.len()).map_err(|_| Error::Other)?;", "        let credential_id_len = self.credential_id.len() as u16;")]),
    dict(id="m07-drop-error", fires=["C07"], key="propagated", edits=[("src/ctap2.rs", "        bytes.push(self.flags.bits()).map_err(|_| Error::Other)?;", "        bytes.push(self.flags.bits()).ok();")]),
    # ---- C08
    dict(id="m08-lt-64", fires=["C08"], key="bounds", edits=[("src/ctap1.rs", "if request.len() < 65 {", "if request.len() < 64 {")]),
    dict(id="m08-weak-register", fires=["C08"], key="ins1", edits=[("src/ctap1.rs", "if request.len() != 64 {", "if request.len() < 64 {")]),
    dict(id="m08-class-after-version", fires=["C08"], key="class", edits=[("src/ctap1.rs",
         "        if cla != 0 {\n            return Err(Error::ClassNotSupported);\n        }\n\n        if ins == 0x3 {\n            // for some weird historical reason, [0, 3, 0, 0, 0, 0, 0, 0, 0]\n            // is valid to send here.\n            return Ok(Request::Version);\n        };",
         "        if ins == 0x3 {\n            return Ok(Request::Version);\n        };\n        if cla != 0 {\n            return Err(Error::ClassNotSupported);\n        }")]),
    # ---- C09
    dict(id="m09-drop-result", fires=["C09"], key="propagated", edits=[("src/ctap1.rs", "                buf.extend_from_slice(&auth.count.to_be_bytes())?;", "                let _ = buf.extend_from_slice(&auth.count.to_be_bytes());")]),
    # ---- C10
    dict(id="m10-reset-selection", fires=["C10"], key="Reset", edits=[("src/ctap2.rs", "self.reset().inspect_err", "self.selection().inspect_err")]),
    dict(id="m10-next-assertion-variant", fires=["C10"], key="GetNextAssertion", edits=[("src/ctap2.rs", "Ok(Response::GetNextAssertion(", "Ok(Response::GetAssertion(")]),
    # ---- C11
    dict(id="m11-swap-codes", fires=["C11"], key="0x0c", edits=[("src/operation.rs", "0x0C => LargeBlobs,", "0x0D => LargeBlobs,"), ("src/operation.rs", "0x0D => Config,", "0x0C => Config,")]),
    dict(id="m11-vendor-last", fires=["C11"], key="decode", edits=[("src/operation.rs", "pub const LAST: u8 = 0x7f;", "pub const LAST: u8 = 0xbf;")]),
    # ---- C12
    dict(id="m12-salt-64", fires=["C12"], key="salt_enc", edits=[("src/ctap2/get_assertion.rs", "pub salt_enc: Bytes<80>,", "pub salt_enc: Bytes<64>,")]),
    dict(id="m12-const-8", fires=["C12"], key="allow_list", edits=[("src/sizes.rs", "pub const MAX_CREDENTIAL_COUNT_IN_LIST: usize = 10;", "pub const MAX_CREDENTIAL_COUNT_IN_LIST: usize = 8;")]),
    dict(id="m12-permissions-u32", fires=["C12"], key="permissions", edits=[("src/ctap2/client_pin.rs", "    pub permissions: Option<u8>,", "    pub permissions: Option<u32>,")]),
    # ---- C13
    dict(id="m13-window-3", fires=["C13", "C04"], key="floor", edits=[("src/webauthn.rs", "let lower_bound = index.saturating_sub(3);", "let lower_bound = index.saturating_sub(2);")]),
    dict(id="m13-icon-truncates", fires=["C13", "C01", "C12"], key="icon", edits=[("src/webauthn.rs", '        deserialize_with = "deserialize_from_str_and_skip_if_too_long"', '        deserialize_with = "deserialize_from_str_and_truncate"')]),
    # ---- C14
    dict(id="m14-error-on-unknown", fires=["C14"], key="algs", edits=[("src/webauthn.rs", "                        // Drop unknown algorithms\n                        continue;", '                        return Err(serde::de::Error::custom("unknown algorithm"));')]),
    dict(id="m14-polarity", fires=["C14"], key="known", edits=[("src/webauthn.rs", 'if value.key_type != "public-key" {', 'if value.key_type == "public-key" {')]),
    # ---- C15
    # ---- C16
    dict(id="m16-gated-before-ungated", fires=["C16", "C02"], key="large_blob_key", edits=[("src/ctap2/credential_management.rs",
         '    // 0x0B\n    #[serde(skip_serializing_if = "Option::is_none")]\n    pub large_blob_key: Option<ByteArray<32>>,\n    // 0x0C\n    #[cfg(feature = "third-party-payment")]\n    #[serde(skip_serializing_if = "Option::is_none")]\n    pub third_party_payment: Option<bool>,',
         '    // 0x0C\n    #[cfg(feature = "third-party-payment")]\n    #[serde(skip_serializing_if = "Option::is_none")]\n    pub third_party_payment: Option<bool>,\n    // 0x0B\n    #[serde(skip_serializing_if = "Option::is_none")]\n    pub large_blob_key: Option<ByteArray<32>>,')]),
    # ---- C17
    dict(id="m17-len-no-plus-one", fires=["C17", "C02"], key="final-length", edits=[("src/ctap2.rs", "buffer.resize_default(l + 1).ok();", "buffer.resize_default(l).ok();")]),
    dict(id="m17-err-keeps-capacity", fires=["C17", "C02"], key="buffer-ops", edits=[("src/ctap2.rs", "            *status = Error::Other as u8;\n            buffer.resize_default(1).ok();", "            *status = Error::Other as u8;")]),
    # ---- C18
    dict(id="m18-discriminant", fires=["C18"], key="GetUVRetries", edits=[("src/ctap2/client_pin.rs", "GetUVRetries = 0x07,", "GetUVRetries = 0x08,")]),
    # ---- C19 (arbitrary feature)
    dict(id="m19-no-min", fires=["C19"], key="arbitrary_bytes", features="all", edits=[("src/arbitrary.rs", "    let n = usize::arbitrary(u)?.min(N);\n    Ok(Bytes::from_slice(u.bytes(n)?).unwrap())", "    let n = usize::arbitrary(u)?;\n    Ok(Bytes::from_slice(u.bytes(n)?).unwrap())")]),
    dict(id="m19-bytes-31", fires=["C19"], key="register", features="all", edits=[("src/arbitrary.rs",
         "        let challenge = u.bytes(32)?.try_into().unwrap();\n        let app_id = u.bytes(32)?.try_into().unwrap();\n        Ok(Self { challenge, app_id })",
         "        let challenge = u.bytes(32)?.try_into().unwrap();\n        let app_id = u.bytes(31)?.try_into().unwrap();\n        Ok(Self { challenge, app_id })")]),
    # ---- replacements for cases the existing tests already catch (a valid mutant must pass the 36 tests)
    dict(id="m02-null-member", fires=["C02"], key="no-null", edits=[("src/ctap2/get_assertion.rs",
         '    #[serde(skip_serializing_if = "Option::is_none")]\n    pub user_selected: Option<bool>,', "    pub user_selected: Option<bool>,")]),
    dict(id="m03-swap-extensions", fires=["C03", "C15"], key="order", edits=[("src/ctap2/make_credential.rs",
         '    #[serde(rename = "hmac-secret")]\n    #[serde(skip_serializing_if = "Option::is_none")]\n    pub hmac_secret: Option<bool>,\n\n', ""),
         ("src/ctap2/make_credential.rs", '    pub large_blob_key: Option<bool>,\n', '    pub large_blob_key: Option<bool>,\n\n    #[serde(rename = "hmac-secret")]\n    #[serde(skip_serializing_if = "Option::is_none")]\n    pub hmac_secret: Option<bool>,\n')]),
    dict(id="m09-key-handle-300", fires=["C09"], key="key_handle", edits=[("src/ctap1.rs", "        pub key_handle: Bytes<255>,\n        pub attestation_certificate", "        pub key_handle: Bytes<300>,\n        pub attestation_certificate"),
         ("src/ctap1.rs", "            key_handle: Bytes<255>,\n            signature: Bytes<72>,", "            key_handle: Bytes<300>,\n            signature: Bytes<72>,")]),
    dict(id="m15-rename-serialize-only", fires=["C15"], key="up", edits=[("src/ctap2.rs", '    #[serde(skip_serializing_if = "Option::is_none")]\n    pub up: Option<bool>,', '    #[serde(skip_serializing_if = "Option::is_none", rename(serialize = "UP"))]\n    pub up: Option<bool>,')]),
    dict(id="m18-spelling", fires=["C18", "C15"], key="ThirdPartyPayment", edits=[("src/ctap2/get_info.rs", 'const THIRD_PARTY_PAYMENT: &' + Q + 'static str = "thirdPartyPayment";', 'const THIRD_PARTY_PAYMENT: &' + Q + 'static str = "thirdpartyPayment";')]),
]

BENIGN = [
    dict(id="b01-serialize-match-instead-of-if-let", note="Response::serialize: `if let Ok(slice) = outcome {..} else {..}` rewritten as match; local renamed", edits=[
        ("src/ctap2.rs", "        if let Ok(slice) = outcome {\n            *status = 0;", "        match outcome {\n            Ok(slice) => {\n            *status = 0;"),
        ("src/ctap2.rs", "                let l = slice.len();\n                buffer.resize_default(l + 1).ok();\n            }\n        } else {\n            *status = Error::Other as u8;\n            buffer.resize_default(1).ok();\n        }",
         "                let written = slice.len();\n                buffer.resize_default(written + 1).ok();\n            }\n            }\n            Err(_) => {\n            *status = Error::Other as u8;\n            buffer.resize_default(1).ok();\n            }\n        }")]),
    dict(id="b02-capacity-behind-const", note="a capacity literal replaced by a named constant and a type alias", edits=[
        ("src/ctap2/get_assertion.rs", "#[derive(Clone, Debug, Eq, PartialEq, SerializeIndexed, DeserializeIndexed)]\n#[non_exhaustive]\n#[serde_indexed(offset = 1)]\npub struct HmacSecretInput {",
         "pub const SALT_ENC_LEN: usize = 80;\npub type SaltEnc = Bytes<SALT_ENC_LEN>;\n\n#[derive(Clone, Debug, Eq, PartialEq, SerializeIndexed, DeserializeIndexed)]\n#[non_exhaustive]\n#[serde_indexed(offset = 1)]\npub struct HmacSecretInput {"),
        ("src/ctap2/get_assertion.rs", "pub salt_enc: Bytes<80>,", "pub salt_enc: SaltEnc,")]),
    dict(id="b03-reorder-operation-arms", note="non-overlapping match arms reordered in both Operation tables", edits=[
        ("src/operation.rs", "            0x01 => MakeCredential,\n            0x02 => GetAssertion,", "            0x02 => GetAssertion,\n            0x01 => MakeCredential,"),
        ("src/operation.rs", "            MakeCredential => 0x01,\n            GetAssertion => 0x02,", "            GetAssertion => 0x02,\n            MakeCredential => 0x01,")]),
    dict(id="b04-apdu-if-else", note="APDU parser: early-return guard rewritten as if/else, local renamed", edits=[
        ("src/ctap1.rs", "                if request.len() != 64 {\n                    return Err(Error::IncorrectDataParameter);\n                }\n                Ok(Request::Register(Register {\n                    challenge: (&request[..32]).try_into().unwrap(),\n                    app_id: (&request[32..]).try_into().unwrap(),\n                }))",
         "                if request.len() == 64 {\n                    Ok(Request::Register(Register {\n                        challenge: (&request[..32]).try_into().unwrap(),\n                        app_id: (&request[32..]).try_into().unwrap(),\n                    }))\n                } else {\n                    Err(Error::IncorrectDataParameter)\n                }")]),
    dict(id="b05-new-optional-member-at-fresh-key", note="a new optional response member appended at a key the specification does not assign", edits=[
        ("src/ctap2/client_pin.rs", "    // 0x05, number of uv attempts remaining before lockout\n    #[serde(skip_serializing_if = \"Option::is_none\")]\n    pub uv_retries: Option<u8>,\n}",
         "    // 0x05, number of uv attempts remaining before lockout\n    #[serde(skip_serializing_if = \"Option::is_none\")]\n    pub uv_retries: Option<u8>,\n\n    // 0x06, vendor addition\n    #[serde(skip_serializing_if = \"Option::is_none\")]\n    pub vendor_hint: Option<bool>,\n}")]),
    dict(id="b06-unrelated-function-and-type", note="an unrelated helper function and type added", edits=[
        ("src/sizes.rs", "pub const PACKET_SIZE: usize = 64;", "pub const PACKET_SIZE: usize = 64;\n\n/// Number of packets needed for a message of `len` bytes.\npub fn packets_for(len: usize) -> usize {\n    if len <= PACKET_SIZE - 7 {\n        1\n    } else {\n        1 + (len - (PACKET_SIZE - 7)).div_ceil(PACKET_SIZE - 5)\n    }\n}\n\n#[derive(Clone, Copy, Debug, Default)]\npub struct PacketBudget {\n    pub packets: usize,\n}")]),
    dict(id="b07-dispatch-arms-reordered-and-logging", note="call_ctap2 arms reordered, extra log line", edits=[
        ("src/ctap2.rs", "            // 0x4\n            Request::GetInfo => {\n                debug_now!(\"CTAP2.GI\");\n                Ok(Response::GetInfo(self.get_info()))\n            }\n\n", ""),
        ("src/ctap2.rs", "            // Not stable\n            Request::Vendor(op) => {", "            // 0x4\n            Request::GetInfo => {\n                debug_now!(\"CTAP2.GI\");\n                info!(\"get info\");\n                Ok(Response::GetInfo(self.get_info()))\n            }\n\n            // Not stable\n            Request::Vendor(op) => {")]),
    dict(id="b08-authdata-rename-and-hoist", note="AuthenticatorData::serialize: buffer renamed, flag byte hoisted into a let", edits=[
        ("src/ctap2.rs", "        bytes.push(self.flags.bits()).map_err(|_| Error::Other)?;", "        let flag_byte = self.flags.bits();\n        bytes.push(flag_byte).map_err(|_| Error::Other)?;")]),
    dict(id="b09-wider-floor-window", note="floor_char_boundary searches 5 bytes back instead of 4 (still contains the boundary); locals renamed", edits=[
        ("src/webauthn.rs", "let lower_bound = index.saturating_sub(3);", "let lower_bound = index.saturating_sub(4);")]),
    dict(id="b10-known-params-match", note="Known-parameter conversion rewritten with early returns", edits=[
        ("src/webauthn.rs", "        if value.key_type != \"public-key\" {\n            Err(UnknownPKCredentialParam::UnknownType)\n        } else if KNOWN_ALGS.contains(&value.alg) {\n            Ok(Self { alg: value.alg })\n        } else {\n            Err(UnknownPKCredentialParam::UnknownAlg)\n        }",
         "        if value.key_type != \"public-key\" {\n            return Err(UnknownPKCredentialParam::UnknownType);\n        }\n        if !KNOWN_ALGS.contains(&value.alg) {\n            return Err(UnknownPKCredentialParam::UnknownAlg);\n        }\n        Ok(Self { alg: value.alg })")]),
    dict(id="b11-redundant-empty-guard-removed", note="Request::deserialize: the redundant is_empty() guard removed (split_first already reports the same error)", edits=[
        ("src/ctap2.rs", "        if data.is_empty() {\n            return Err(\n                CtapMappingError::ParsingError(cbor_smol::Error::DeserializeUnexpectedEnd).into(),\n            );\n        }\n\n", "")]),
    dict(id="b12-known-algs-order", note="KNOWN_ALGS listed in the other order (only used as a set)", edits=[
        ("src/webauthn.rs", "pub const KNOWN_ALGS: [i32; COUNT_KNOWN_ALGS] = [ES256, ED_DSA];", "pub const KNOWN_ALGS: [i32; COUNT_KNOWN_ALGS] = [ED_DSA, ES256];")]),
    dict(id="b13-boundary-predicate-dont-care", note="boundary predicate rejects 0xC0, a byte that never occurs in valid UTF-8", edits=[
        ("src/webauthn.rs", "(b as i8) >= -0x40", "(b as i8) >= -0x3F")]),
    dict(id="b14-u2f-serialize-let-binding", note="ctap1::Response::serialize: length byte hoisted into a let", edits=[
        ("src/ctap1.rs", "                buf.push(reg.key_handle.len() as u8).map_err(drop)?;", "                let kh_len = reg.key_handle.len() as u8;\n                buf.push(kh_len).map_err(drop)?;")]),
    dict(id="b16-icon-correct-precheck", note="icon decoder gets a *correct* explicit length pre-check (len > L) in front of push_str", edits=[
        ("src/webauthn.rs", "    let mut string = String::new();\n    match string.push_str(s) {", "    if s.len() > L {\n        return Ok(None);\n    }\n    let mut string = String::new();\n    match string.push_str(s) {")]),
    dict(id="b17-vendor-range-contains", note="VendorOperation::try_from rewritten from a match into (FIRST..=LAST).contains(&from)", edits=[
        ("src/operation.rs", "        match from {\n            code @ Self::FIRST..=Self::LAST => Ok(VendorOperation(code)),\n            _ => Err(()),\n        }",
         "        if (Self::FIRST..=Self::LAST).contains(&from) {\n            Ok(VendorOperation(from))\n        } else {\n            Err(())\n        }")]),
    dict(id="b18-seq-enumerate", note="hand-written sequence serializer iterates with .iter().enumerate() (count-preserving)", edits=[
        ("src/webauthn.rs", "        for element in &self.0 {\n            let el: PublicKeyCredentialParameters = element.clone().into();", "        for (_i, element) in self.0.iter().enumerate() {\n            let el: PublicKeyCredentialParameters = element.clone().into();")]),
    dict(id="b19-safe-unwrap-in-floor", note="floor_char_boundary: unsafe unwrap_unchecked replaced by a safe unwrap_or(0)", edits=[
        ("src/webauthn.rs", "        unsafe { lower_bound + new_index.unwrap_unchecked() }", "        lower_bound + new_index.unwrap_or(0)")]),
    dict(id="b20-control-byte-if-chain", note="ControlByte::try_from rewritten from a match into an if / early-return chain", edits=[
        ("src/ctap1.rs", "        match byte {\n            0x07 => Ok(ControlByte::CheckOnly),\n            0x03 => Ok(ControlByte::EnforceUserPresenceAndSign),\n            0x08 => Ok(ControlByte::DontEnforceUserPresenceAndSign),\n            _ => Err(Error::IncorrectDataParameter),\n        }",
         "        if byte == 0x07 {\n            return Ok(ControlByte::CheckOnly);\n        }\n        if byte == 0x03 {\n            Ok(ControlByte::EnforceUserPresenceAndSign)\n        } else if byte == 0x08 {\n            Ok(ControlByte::DontEnforceUserPresenceAndSign)\n        } else {\n            Err(Error::IncorrectDataParameter)\n        }")]),
    dict(id="b21-filter-loop-let-else", note="filter visit_seq: `while let` rewritten as `loop { let Some(v) = next()? else { break }; .. }`", edits=[
        ("src/webauthn.rs", "                while let Some(value) = seq.next_element::<PublicKeyCredentialParameters>()? {\n                    let Ok(el) = value.try_into() else {",
         "                loop {\n                    let Some(value) = seq.next_element::<PublicKeyCredentialParameters>()? else {\n                        break;\n                    };\n                    let Ok(el) = value.try_into() else {")]),
    dict(id="b15-items-moved", note="an impl block and a struct moved within the file", edits=[
        ("src/operation.rs", "impl Operation {\n    pub fn into_u8(self) -> u8 {\n        self.into()\n    }\n}\n\n", ""),
        ("src/operation.rs", "impl TryFrom<u8> for Operation {", "impl Operation {\n    pub fn into_u8(self) -> u8 {\n        self.into()\n    }\n}\n\nimpl TryFrom<u8> for Operation {")]),
]

# ---- mutated refactorings: a behaviour-preserving change of the benign round (benign/<id>/{A,B}.diff) plus one breaking edit.
# They check that the path-summary engine still sees the break when the code no longer has the shape of the original.
MUTANTS += [
    dict(id="x09-helper-is-err-continues", base="benign/C09/A.diff", fires=["C09"], key="after-failure", edits=[("src/ctap1.rs",
         "    if buf.extend_from_slice(&counter).is_err() {\n        return Err(());\n    }", "    if buf.extend_from_slice(&counter).is_err() {\n        // keep going\n    }")]),
    dict(id="x17-tuple-err-len", base="benign/C03/B.diff", fires=["C17", "C02"], key="final-length", edits=[("src/ctap2.rs",
         "Err(_) => (Error::Other as u8, 0),", "Err(_) => (Error::Other as u8, 1),")]),
    dict(id="x17-tuple-status-swapped", base="benign/C17/B.diff", fires=["C17", "C02"], key="status", edits=[("src/ctap2.rs",
         "Ok([EMPTY_MAP]) => (Error::Success as u8, STATUS_ONLY),", "Ok([EMPTY_MAP]) => (Error::Other as u8, STATUS_ONLY),")]),
    dict(id="x17-helper-wrong-payload", base="benign/C17/A.diff", fires=["C17", "C02"], key="payload", edits=[("src/ctap2.rs",
         "Self::GetNextAssertion(inner) => cbor_serialize(inner, body),", "Self::GetNextAssertion(_inner) => Ok(&[]),")]),
    dict(id="x08-helper-register-at-least", base="benign/C08/A.diff", fires=["C08"], key="ins1", edits=[("src/ctap1.rs",
         "    if data.len() != 2 * PARAMETER_SIZE {\n        return Err(Error::IncorrectDataParameter);\n    }\n    let (challenge, app_id) = data.split_at(PARAMETER_SIZE);",
         "    if data.len() < 2 * PARAMETER_SIZE {\n        return Err(Error::IncorrectDataParameter);\n    }\n    let (challenge, app_id) = data[..2 * PARAMETER_SIZE].split_at(PARAMETER_SIZE);")]),
    dict(id="x08-helper-handle-len-mod-256", base="benign/C08/A.diff", fires=["C08"], key="ins2", edits=[("src/ctap1.rs",
         "if key_handle.len() != usize::from(key_handle_length) {", "if key_handle.len() as u8 != key_handle_length {")]),
    dict(id="x14-loop-break-on-unknown", base="benign/C14/A.diff", fires=["C14", "C01"], key="drains", edits=[("src/webauthn.rs",
         "                        let _ = known.push(el);\n                    }\n",
         "                        let _ = known.push(el);\n                    } else {\n                        break;\n                    }\n")]),
    dict(id="x11-contains-half-open", base="benign/C11/A.diff", fires=["C11"], key="0x7f", edits=[("src/operation.rs",
         "(Self::FIRST..=Self::LAST).contains(&from)", "(Self::FIRST..Self::LAST).contains(&from)")]),
    dict(id="x10-trace-err-maps-error", base="benign/C10/A.diff", fires=["C10"], key="error-path", edits=[("src/ctap2.rs",
         "trace_err(self.reset()).map(|()| Response::Reset)", "trace_err(self.reset()).map_err(|_| Error::Other).map(|()| Response::Reset)")]),
]

# mutated refactorings, second benign round (benign2/): each starts from a behaviour-preserving rewrite and breaks it
MUTANTS += [
    dict(id="x18-handwritten-repr-accepts-zero", base="benign2/C18/A.diff", fires=["C18", "C15"], key="serde-de", edits=[("src/ctap2/credential_management.rs",
         "            OPTIONAL => Ok(Self::Optional),", "            OPTIONAL | 0 => Ok(Self::Optional),")]),
    dict(id="x18-handwritten-str-de-accepts-uppercase", base="benign2/C15/B.diff", fires=["C18", "C15"], key="serde", edits=[("src/ctap2.rs",
         "        Self::try_from(identifier).map_err(serde::de::Error::custom)",
         "        if identifier == \"NONE\" {\n            return Ok(Self::None);\n        }\n        Self::try_from(identifier).map_err(serde::de::Error::custom)")]),
    dict(id="x13-guarded-from-strict", base="benign2/C13/B.diff", fires=["C13"], key="skip", edits=[("src/webauthn.rs",
         "(s.len() <= L).then(|| String::from(s))", "(s.len() < L).then(|| String::from(s))")]),
    dict(id="x13-guarded-from-too-wide", base="benign2/C13/B.diff", fires=["C13", "C04"], key="fallible-conversion", edits=[("src/webauthn.rs",
         "(s.len() <= L).then(|| String::from(s))", "(s.len() <= 2 * L).then(|| String::from(s))")]),
    dict(id="x14-local-flag-overwritten", base="benign2/C14/B.diff", fires=["C14"], key="flag", edits=[("src/ctap2.rs",
         "unknown |= format.is_none();", "unknown = format.is_none();")]),
    dict(id="x08-chunks-handle-may-be-longer", base="benign2/C08/A.diff", fires=["C08"], key="ins2", edits=[("src/ctap1.rs",
         "if key_handle.len() != usize::from(key_handle_length) {", "if key_handle.len() < usize::from(key_handle_length) {")]),
    dict(id="x19-selector-shift-31", base="benign2/C19/A.diff", fires=["C19"], key="bounds", features="all", edits=[("src/arbitrary.rs",
         "(u64::from(selector) * VARIANTS.len() as u64) >> 32", "(u64::from(selector) * VARIANTS.len() as u64) >> 31")]),
    dict(id="x19-clamp-off-by-one", base="benign2/C19/B.diff", fires=["C19"], key="unwrap", features="all", edits=[("src/arbitrary.rs",
         "let len = if requested > N { N } else { requested };", "let len = if requested > N + 1 { N } else { requested };")]),
    dict(id="x07-counter-bytes-reordered", base="benign2/C03/A.diff", fires=["C07"], key="layout", edits=[("src/ctap2.rs",
         "&[self.flags.bits(), count0, count1, count2, count3]", "&[self.flags.bits(), count1, count0, count2, count3]")]),
    dict(id="x04-counting-loop-one-too-far", base="benign2/C14/A.diff", fires=["C04"], key="is_known_alg", edits=[("src/webauthn.rs",
         "while i < COUNT_KNOWN_ALGS {", "while i <= COUNT_KNOWN_ALGS {")]),
]

# mutated refactorings of the encoder framing (writer form / split_at_mut form)
MUTANTS += [
    dict(id="x17-writer-cursor-skips-a-byte", base="benign2/C17/B.diff", fires=["C17", "C02", "C03"], key="only-encoder-writes", edits=[("src/ctap2.rs",
         "let mut cursor = &mut *data;", "let mut cursor = &mut data[1..];")]),
    dict(id="x17-writer-length-plus-two", base="benign2/C17/B.diff", fires=["C17", "C02", "C03"], key="final-length", edits=[("src/ctap2.rs",
         "buffer.resize_default(body_len + 1).ok();", "buffer.resize_default(body_len + 2).ok();")]),
    dict(id="x17-split-at-status-from-unwrap-or-one", base="benign3/C17/B.diff", fires=["C17", "C02", "C03"], key="final-length", edits=[("src/ctap2.rs",
         "buffer.truncate(Self::HEADER_LEN + body_len.unwrap_or(0));", "buffer.truncate(Self::HEADER_LEN + body_len.unwrap_or(1));")]),
]

# mutated refactorings of the iterator-chain loop that assembles the public key
MUTANTS += [
    dict(id="x09-chain-push-unchecked", base="benign2/C09/B.diff", fires=["C09"], key="propagated", edits=[("src/ctap1.rs",
         "response.public_key.push(byte).unwrap();", "response.public_key.push(byte).ok();")]),
    dict(id="x09-chain-skips-zero-bytes", base="benign2/C09/B.diff", fires=["C09"], key="new", edits=[("src/ctap1.rs",
         "response.public_key.push(byte).unwrap();", "if byte != 0 {\n                    response.public_key.push(byte).unwrap();\n                }")]),
]

# mutated refactorings of the fourth benign round (macro-generated tables, fold-style loops)
MUTANTS += [
    dict(id="x18-macro-table-misspelt-row", base="benign4/C18/B.diff", fires=["C18"], key="ThirdPartyPayment", edits=[("src/ctap2/get_info.rs",
         'ThirdPartyPayment => THIRD_PARTY_PAYMENT = "thirdPartyPayment",', 'ThirdPartyPayment => THIRD_PARTY_PAYMENT = "thirdpartyPayment",')]),
    dict(id="x14-try-fold-flag-and", base="benign4/C14/B.diff", fires=["C14", "C01"], key="formats", edits=[("src/ctap2.rs",
         "preference.unknown |= format.is_none();", "preference.unknown = format.is_none();")]),
    dict(id="x14-then-some-negated", base="benign4/C03/B.diff", fires=["C14"], key="known", edits=[("src/webauthn.rs",
         ".contains(&alg)\n            .then_some(Self { alg })", ".contains(&alg)\n            .then_some(Self { alg: -alg })")]),
]

# round 5: mutated refactorings (the refactored form must still be *read*, not merely tolerated)
MUTANTS += [
    dict(id="x14-shared-visitor-swallows-error", base="benign5/C04/B.diff", fires=["C14"], key="C14|algs", edits=[("src/webauthn.rs",
         "while let Some(value) = seq.next_element::<T>()? {", "while let Ok(Some(value)) = seq.next_element::<T>() {")]),
    dict(id="x14-shared-visitor-push-unwrapped", base="benign5/C04/B.diff", fires=["C14"], key="algs", edits=[("src/webauthn.rs",
         "values.0.push(el).ok();", "values.0.push(el).unwrap();")]),
    dict(id="x14-shared-visitor-flag-dropped", base="benign5/C04/B.diff", fires=["C14"], key="formats", edits=[("src/ctap2.rs",
         "                preference.unknown = true;\n", "                let _ = &preference;\n")]),
    dict(id="x14-helper-closure-skips-first", base="benign5/C01/B.diff", fires=["C14"], key="C14|algs", edits=[("src/webauthn.rs",
         "    while let Some(element) = seq.next_element::<T>()? {\n        f(element);\n    }\n    Ok(())",
         "    let _ = seq.next_element::<T>()?;\n    while let Some(element) = seq.next_element::<T>()? {\n        f(element);\n    }\n    Ok(())")]),
    dict(id="x19-counted-loop-one-too-many", base="benign5/C19/A.diff", fires=["C19"], key="arbitrary_vec", edits=[("src/arbitrary.rs",
         "for _ in 0..len {", "for _ in 0..=len {")]),
    dict(id="x19-counted-loop-wrong-bound", base="benign5/C19/A.diff", fires=["C19"], key="arbitrary_vec", edits=[("src/arbitrary.rs",
         "let len = u.int_in_range(0..=max_len)?;", "let len = u.int_in_range(0..=max_len + 1)?;")]),
    dict(id="x17-helper-wrong-empty-map", base="benign5/C17/B.diff", fires=["C17"], key="C17|", edits=[("src/ctap2.rs",
         "[0xA0] => 0,", "[0xA0] => 1,")]),
    dict(id="x13-icon-from-string", base="benign5/C06/A.diff", fires=["C13"], key="icon", edits=[("src/webauthn.rs",
         '#[serde(from = "&str")]', '#[serde(from = "String<64>")]'), ("src/webauthn.rs", "impl From<&str> for Icon {", "impl From<String<64>> for Icon {"),
         ("src/webauthn.rs", "fn from(_icon: &str) -> Self {", "fn from(_icon: String<64>) -> Self {")]),
]

# logging compiled in (configuration kL): the arguments of log statements must be total
MUTANTS += [
    dict(id="m04-log-arg-slices-text", fires=["C04"], key="log-args", edits=[("src/webauthn.rs",
         'info_now!("skipping field: {:?}", _err);', 'info_now!("skipping field: {:?} ({})", _err, &s[..8]);')]),
    dict(id="m19-log-arg-unwraps", fires=["C19"], key="log-args", edits=[("src/ctap2.rs",
         'debug_now!("CTAP2.GA");', 'debug_now!("CTAP2.GA {}", request.allow_list.as_ref().unwrap().len());')]),
    dict(id="m08-log-arg-index-before-guard", fires=["C08"], key="bounds", edits=[("src/ctap1.rs",
         "                let control_byte = ControlByte::try_from(p1)?;\n", "                let control_byte = ControlByte::try_from(p1)?;\n                debug_now!(\"key handle length {}\", request[64]);\n")]),
]
BENIGN += [
    dict(id="b08-log-statement-total-args", note="trace lines with total arguments in the CTAP1 parser and the decoder", edits=[("src/ctap1.rs",
         "                let control_byte = ControlByte::try_from(p1)?;\n", "                let control_byte = ControlByte::try_from(p1)?;\n                debug_now!(\"authenticate: {} bytes\", request.len());\n"),
         ("src/webauthn.rs", 'info_now!("skipping field: {:?}", _err);', 'info_now!("skipping field: {:?} ({} bytes)", _err, s.len());')]),
]

